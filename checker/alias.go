package main

// E9 — slice-aliasing (append ownership) analysis.

import (
	"fmt"
	"go/token"
	"go/types"
	"strings"

	"golang.org/x/tools/go/ssa"
)

type baseKind int

const (
	baseNil     baseKind = iota // nil slice: append always allocates
	baseExact                   // cap == len provable (literal, make without cap, full slice expr)
	baseSpare                   // freshly allocated in this activation, may have spare capacity
	baseChain                   // result of an earlier append of the same chain
	baseForeign                 // loaded from an object the function does not own
)

func (k baseKind) String() string {
	return [...]string{"nil", "exact(cap==len)", "fresh(spare capacity)", "append-chain", "foreign"}[k]
}

type aliasFinding struct {
	Fn     *ssa.Function
	Call   *ssa.Call
	Shape  string // foreign | forked
	Base   string
	Detail string
}

type AliasAudit struct {
	P        *Prog
	fresh    map[*ssa.Function]int // 0 unknown, 1 fresh, 2 not fresh (in progress counts as fresh)
	retains  map[[2]interface{}]int
	Appends  int
	Retained int
	Assume   map[string]bool
	Owned    []string // positive examples: retained appends on owned bases
}

func NewAliasAudit(p *Prog) *AliasAudit {
	return &AliasAudit{P: p, fresh: map[*ssa.Function]int{}, retains: map[[2]interface{}]int{}, Assume: map[string]bool{}}
}

func isAppend(v ssa.Value) (*ssa.Call, bool) {
	c, ok := v.(*ssa.Call)
	if !ok {
		return nil, false
	}
	if b, ok := c.Call.Value.(*ssa.Builtin); ok {
		return c, b.Name() == "append"
	}
	// an append-style helper of the module (dst = appendX(dst, …)) is an append onto its first operand
	if f := staticCallee(&c.Call); f != nil && appendLike(f) {
		return c, true
	}
	return c, false
}

// appendLike: a function of the module whose first parameter is a slice and whose only result is, on
// every return, that parameter extended by appends (or re-sliced, or nil): the append-style idiom.
// Its appends onto the parameter are judged at its call sites, where the call counts as an append.
var appendLikeMemo = map[*ssa.Function]int{}

func appendLike(f *ssa.Function) bool {
	switch appendLikeMemo[f] {
	case 1:
		return true
	case 2:
		return false
	}
	appendLikeMemo[f] = 2
	if f.Blocks == nil || f.Pkg == nil || !strings.HasPrefix(f.Pkg.Pkg.Path(), modPath) || f.Signature.Recv() != nil ||
		len(f.Params) < 1 || f.Signature.Results().Len() != 1 {
		return false
	}
	if _, ok := f.Params[0].Type().Underlying().(*types.Slice); !ok || !types.Identical(f.Params[0].Type(), f.Signature.Results().At(0).Type()) {
		return false
	}
	seen := map[ssa.Value]bool{}
	viaParam := false
	var rooted func(v ssa.Value) bool
	rooted = func(v ssa.Value) bool {
		if seen[v] {
			return true
		}
		seen[v] = true
		switch x := v.(type) {
		case *ssa.Parameter:
			if x == f.Params[0] {
				viaParam = true
				return true
			}
			return false
		case *ssa.Const:
			return x.Value == nil
		case *ssa.Phi:
			for _, e := range x.Edges {
				if !rooted(e) {
					return false
				}
			}
			return true
		case *ssa.Slice:
			return rooted(x.X)
		case *ssa.Call:
			if c, ok := isAppend(x); ok {
				return rooted(c.Call.Args[0])
			}
		}
		return false
	}
	ok := true
	nret := 0
	instrs(f, func(in ssa.Instruction) {
		if r, isR := in.(*ssa.Return); isR {
			nret++
			if len(r.Results) != 1 || !rooted(r.Results[0]) {
				ok = false
			}
		}
	})
	if ok && viaParam && nret > 0 {
		appendLikeMemo[f] = 1
		return true
	}
	return false
}

// sources classifies where a slice value comes from (following φ and slicing).
func (a *AliasAudit) sources(v ssa.Value, seen map[ssa.Value]bool, out map[baseKind][]ssa.Value) {
	if seen[v] {
		return
	}
	seen[v] = true
	switch x := v.(type) {
	case *ssa.Const:
		out[baseNil] = append(out[baseNil], v)
	case *ssa.Phi:
		for _, e := range x.Edges {
			a.sources(e, seen, out)
		}
	case *ssa.ChangeType:
		a.sources(x.X, seen, out)
	case *ssa.Convert:
		a.sources(x.X, seen, out)
	case *ssa.MakeSlice:
		if x.Cap == nil || x.Cap == x.Len {
			out[baseExact] = append(out[baseExact], v)
		} else if cl, ok := constInt(x.Len); ok {
			if cc, ok := constInt(x.Cap); ok && cl == cc {
				out[baseExact] = append(out[baseExact], v)
			} else {
				out[baseSpare] = append(out[baseSpare], v)
			}
		} else {
			out[baseSpare] = append(out[baseSpare], v)
		}
	case *ssa.Slice:
		// slice of a fresh array literal: cap == len when low/high absent
		if al, ok := x.X.(*ssa.Alloc); ok {
			if _, isArr := deref(al.Type()).Underlying().(*types.Array); isArr {
				// a fresh array of this activation (slice literal or make with constant sizes)
				if x.High == nil {
					out[baseExact] = append(out[baseExact], v)
				} else {
					out[baseSpare] = append(out[baseSpare], v)
				}
				return
			}
		}
		if x.Max != nil && x.High != nil && Expr(x.Max) == Expr(x.High) {
			out[baseExact] = append(out[baseExact], v)
			return
		}
		a.sources(x.X, seen, out) // re-slicing keeps the backing array
	case *ssa.Call:
		if _, ok := isAppend(v); ok {
			out[baseChain] = append(out[baseChain], v)
			return
		}
		if f := staticCallee(&x.Call); f != nil {
			if a.P.IsGenerated(f) || isProtoGetter(f) {
				out[baseForeign] = append(out[baseForeign], v)
				return
			}
			if pkgPathOf(f) == "slices" && len(x.Call.Args) > 0 {
				// these hand back (a re-slicing of) their first argument
				for _, pre := range []string{"DeleteFunc", "Delete", "Compact", "CompactFunc", "Clip", "Grow", "Insert", "Replace"} {
					if f.Name() == pre || strings.HasPrefix(f.Name(), pre+"[") {
						a.sources(x.Call.Args[0], seen, out)
						return
					}
				}
			}
			if strings.HasPrefix(pkgPathOf(f), modPath) {
				if a.returnsFresh(f) {
					out[baseSpare] = append(out[baseSpare], v)
				} else {
					out[baseForeign] = append(out[baseForeign], v)
				}
				return
			}
		}
		// library / dynamic call: results are taken as freshly allocated
		a.Assume["results of calls outside the module are freshly allocated slices"] = true
		out[baseSpare] = append(out[baseSpare], v)
	case *ssa.UnOp:
		if x.Op == token.MUL {
			if al, ok := x.X.(*ssa.Alloc); ok {
				// local variable cell: look at what is stored
				for _, r := range *al.Referrers() {
					if st, ok := r.(*ssa.Store); ok && st.Addr == ssa.Value(al) {
						a.sources(st.Val, seen, out)
					}
				}
				return
			}
		}
		out[baseForeign] = append(out[baseForeign], v) // field / element / global load
	case *ssa.Parameter, *ssa.FreeVar:
		out[baseForeign] = append(out[baseForeign], v)
	case *ssa.Extract:
		a.sources(x.Tuple, seen, out)
	default:
		out[baseForeign] = append(out[baseForeign], v)
	}
}

func isProtoGetter(f *ssa.Function) bool {
	return f.Signature.Recv() != nil && strings.HasPrefix(f.Name(), "Get") && f.Pkg != nil && strings.Contains(f.Pkg.Pkg.Path(), "/proto/")
}

// returnsFresh: every returned slice is allocated in the function (nil, make, literal or an append chain rooted there).
func (a *AliasAudit) returnsFresh(f *ssa.Function) bool {
	switch a.fresh[f] {
	case 1:
		return true
	case 2:
		return false
	}
	a.fresh[f] = 1 // optimistic for recursion
	ok := true
	instrs(f, func(in ssa.Instruction) {
		r, isR := in.(*ssa.Return)
		if !isR {
			return
		}
		for _, res := range r.Results {
			if _, isSl := res.Type().Underlying().(*types.Slice); !isSl {
				continue
			}
			if !a.rootedFresh(res, map[ssa.Value]bool{}) {
				ok = false
			}
		}
	})
	if ok {
		a.fresh[f] = 1
	} else {
		a.fresh[f] = 2
	}
	return ok
}

// rootedFresh follows append chains to their first base.
func (a *AliasAudit) rootedFresh(v ssa.Value, seen map[ssa.Value]bool) bool {
	if seen[v] {
		return true
	}
	seen[v] = true
	src := map[baseKind][]ssa.Value{}
	a.sources(v, map[ssa.Value]bool{}, src)
	if len(src[baseForeign]) > 0 {
		return false
	}
	for _, c := range src[baseChain] {
		call := c.(*ssa.Call)
		if !a.rootedFresh(call.Call.Args[0], seen) {
			return false
		}
	}
	return true
}

// paramRetained: does f keep a reference to its i-th parameter beyond the call?
func (a *AliasAudit) paramRetained(f *ssa.Function, i int, depth int) bool {
	key := [2]interface{}{f, i}
	switch a.retains[key] {
	case 1:
		return true
	case 2:
		return false
	}
	if f.Blocks == nil || i >= len(f.Params) || depth > 6 {
		return false
	}
	a.retains[key] = 2 // recursion: assume not retained unless proven
	r, _ := a.retained(f.Params[i], depth+1)
	if r {
		a.retains[key] = 1
	}
	return r
}

// retained: does the slice value v (or a value sharing its backing array) escape the activation?
func (a *AliasAudit) retained(v ssa.Value, depth int) (bool, string) {
	seen := map[ssa.Value]bool{}
	var why string
	var walk func(x ssa.Value) bool
	walk = func(x ssa.Value) bool {
		if seen[x] || x.Referrers() == nil {
			return false
		}
		seen[x] = true
		for _, r := range *x.Referrers() {
			switch u := r.(type) {
			case *ssa.Phi, *ssa.ChangeType, *ssa.Convert, *ssa.MakeInterface:
				if walk(u.(ssa.Value)) {
					return true
				}
			case *ssa.Slice:
				if u.X == x && walk(u) {
					return true
				}
			case *ssa.Return:
				why = "returned"
				return true
			case *ssa.MakeClosure:
				why = "captured by closure " + fnName(u.Fn.(*ssa.Function))
				return true
			case *ssa.Send:
				why = "sent on a channel"
				return true
			case *ssa.MapUpdate:
				if u.Value == x || u.Key == x {
					why = "stored in a map"
					return true
				}
			case *ssa.Store:
				if u.Val != x {
					continue
				}
				if al, ok := u.Addr.(*ssa.Alloc); ok && !isStructAlloc(al) {
					// local variable cell (possibly captured): follow loads and captures
					if walk(al) {
						return true
					}
					continue
				}
				why = "stored to " + Expr(u.Addr)
				return true
			case *ssa.UnOp:
				if u.Op == token.MUL {
					if walk(u) {
						return true
					}
				}
			case *ssa.Go:
				why = "passed to a goroutine"
				return true
			case ssa.CallInstruction:
				cc := u.Common()
				if b, ok := cc.Value.(*ssa.Builtin); ok {
					if b.Name() == "append" && len(cc.Args) > 0 && cc.Args[0] == x {
						if cv, ok := u.(ssa.Value); ok && walk(cv) {
							return true
						}
					}
					continue
				}
				callee := staticCallee(cc)
				if callee == nil {
					a.Assume["calls through interfaces / function values do not retain slice arguments"] = true
					continue
				}
				if !strings.HasPrefix(pkgPathOf(callee), modPath) {
					a.Assume["library functions do not retain slice arguments"] = true
					continue
				}
				off := 0
				for j, arg := range cc.Args {
					if arg == x && a.paramRetained(callee, j+off, depth) {
						why = "retained by callee " + fnName(callee)
						return true
					}
				}
			}
		}
		return false
	}
	r := walk(v)
	return r, why
}

func isStructAlloc(al *ssa.Alloc) bool {
	switch deref(al.Type()).Underlying().(type) {
	case *types.Struct, *types.Array:
		return true
	}
	return false
}

func pkgPathOf(f *ssa.Function) string {
	if f.Pkg != nil {
		return f.Pkg.Pkg.Path()
	}
	if f.Parent() != nil {
		return pkgPathOf(f.Parent())
	}
	// instantiation of a generic function
	if o := f.Origin(); o != nil && o != f {
		return pkgPathOf(o)
	}
	if f.Object() != nil && f.Object().Pkg() != nil {
		return f.Object().Pkg().Path()
	}
	return ""
}

// inLoopWithout reports whether block b lies on a CFG cycle that avoids block def.
func inLoopWithout(b, def *ssa.BasicBlock) bool {
	seen := map[*ssa.BasicBlock]bool{}
	var w func(x *ssa.BasicBlock) bool
	w = func(x *ssa.BasicBlock) bool {
		if x == def {
			return false
		}
		if x == b && len(seen) > 0 {
			return true
		}
		if seen[x] {
			return false
		}
		seen[x] = true
		for _, s := range x.Succs {
			if w(s) {
				return true
			}
		}
		return false
	}
	for _, s := range b.Succs {
		if s == def {
			continue
		}
		seen[b] = true
		if s == b || w(s) {
			return true
		}
	}
	return false
}

// Audit examines every append of the functions of the given packages.
func (a *AliasAudit) Audit(pkgs []string) []aliasFinding {
	var out []aliasFinding
	for _, pk := range pkgs {
		for _, f := range a.P.PkgFuncs(pk) {
			if a.P.InTestFile(f) || a.P.IsGenerated(f) {
				continue
			}
			// count uses of each value as an append base
			baseUses := map[ssa.Value][]*ssa.Call{}
			instrs(f, func(in ssa.Instruction) {
				if c, ok := isAppend(valueOf(in)); ok {
					baseUses[c.Call.Args[0]] = append(baseUses[c.Call.Args[0]], c)
				}
			})
			instrs(f, func(in ssa.Instruction) {
				c, ok := isAppend(valueOf(in))
				if !ok {
					return
				}
				a.Appends++
				ret, why := a.retained(c, 0)
				if !ret {
					return
				}
				a.Retained++
				base := c.Call.Args[0]
				if selfUpdate(c) {
					a.Owned = append(a.Owned, fnName(f)+": "+Expr(c)+" (x = append(x, …) on the owner's own variable/field)")
					return
				}
				src := map[baseKind][]ssa.Value{}
				a.sources(base, map[ssa.Value]bool{}, src)
				if appendLike(f) && len(src[baseForeign]) > 0 {
					only := true
					for _, fb := range src[baseForeign] {
						if fb != ssa.Value(f.Params[0]) {
							only = false
						}
					}
					if only {
						a.Owned = append(a.Owned, fnName(f)+": "+Expr(c)+" (append-style helper: the append onto its first parameter is judged at every call site)")
						return
					}
				}
				if len(src[baseForeign]) > 0 {
					out = append(out, aliasFinding{Fn: f, Call: c, Shape: "foreign", Base: Expr(src[baseForeign][0]),
						Detail: fmt.Sprintf("append onto %s, which this function does not own (result %s); with spare capacity the stored object's backing array is overwritten/shared", Expr(src[baseForeign][0]), why)})
					return
				}
				// forked: a base with possible spare capacity appended to more than once
				spare := append([]ssa.Value{}, src[baseSpare]...)
				for _, ch := range src[baseChain] {
					spare = append(spare, ch)
				}
				for _, s := range spare {
					forked := ""
					if def, ok := s.(ssa.Instruction); ok && def.Block() != nil {
						if base == s && inLoopWithout(c.Block(), def.Block()) {
							forked = "appended to on every iteration of a loop that does not redefine it"
						} else if phi, isPhi := base.(*ssa.Phi); isPhi && !chainOf(s, c) {
							for i, e := range phi.Edges {
								if e == s && i < len(phi.Block().Preds) && inLoopWithout(phi.Block().Preds[i], def.Block()) {
									forked = "one source of the base is loop-invariant and flows into the append on every iteration"
								}
							}
						}
					}
					if forked == "" && len(baseUses[s]) > 1 {
						// two append sites on the same value: forked unless they are on exclusive paths
						for _, other := range baseUses[s] {
							if other != c && (instrDominates(other, c) || instrDominates(c, other) || reachableFrom(other.Block())[c.Block()]) {
								forked = "the same base value is appended to at another site (" + a.P.Pos(other.Pos()) + ")"
							}
						}
					}
					if forked != "" {
						out = append(out, aliasFinding{Fn: f, Call: c, Shape: "forked", Base: Expr(s),
							Detail: fmt.Sprintf("base %s may have spare capacity and %s; the retained results (%s) share one backing array", Expr(s), forked, why)})
						return
					}
				}
				a.Owned = append(a.Owned, fnName(f)+": "+Expr(c)+" ("+why+")")
			})
		}
	}
	return out
}

// selfUpdate recognises `x = append(x, …)`: the base is loaded from an address and
// the result's only uses are stores back to that same address (same expression).
func selfUpdate(c *ssa.Call) bool {
	u, ok := c.Call.Args[0].(*ssa.UnOp)
	if !ok || u.Op != token.MUL {
		return false
	}
	addr := Expr(u.X)
	if c.Referrers() == nil {
		return false
	}
	stores := 0
	for _, r := range *c.Referrers() {
		switch x := r.(type) {
		case *ssa.Store:
			if x.Val != ssa.Value(c) || Expr(x.Addr) != addr {
				return false
			}
			stores++
		case *ssa.DebugRef:
		default:
			return false
		}
	}
	return stores > 0
}

func valueOf(in ssa.Instruction) ssa.Value {
	v, _ := in.(ssa.Value)
	return v
}

func phiHasEdge(p *ssa.Phi, v ssa.Value) bool {
	for _, e := range p.Edges {
		if e == v {
			return true
		}
	}
	return false
}

// chainOf: is s itself (transitively) an append result based on c (i.e. the loop-carried chain)?
func chainOf(s ssa.Value, c *ssa.Call) bool {
	seen := map[ssa.Value]bool{}
	var w func(v ssa.Value) bool
	w = func(v ssa.Value) bool {
		if seen[v] {
			return false
		}
		seen[v] = true
		if v == ssa.Value(c) {
			return true
		}
		switch x := v.(type) {
		case *ssa.Phi:
			for _, e := range x.Edges {
				if w(e) {
					return true
				}
			}
		case *ssa.Call:
			if ac, ok := isAppend(x); ok {
				return w(ac.Call.Args[0])
			}
		}
		return false
	}
	return w(s)
}
