package main

import (
	"go/token"
	"go/types"

	"golang.org/x/tools/go/ssa"
)

// cacheAnchors resolves the anchors shared by the cache rules (C02, C03, C12, C14, C15).
type cacheAnchors struct {
	gnmiUpdate, GnmiUpdate, gnmiRemove, toDelete, join *ssa.Function
	fThr, fTs, fEvent, fSync, fClient, fMeta, fTree    *types.Var
	fAtomic, fTimestamp                                *types.Var
	metaRoot                                           string
	ok                                                 bool
}

func resolveCache(c *Ctx, rule string) *cacheAnchors {
	P := c.P
	a := &cacheAnchors{
		gnmiUpdate: P.Method("cache", "Target", "gnmiUpdate"),
		GnmiUpdate: P.Method("cache", "Target", "GnmiUpdate"),
		gnmiRemove: P.Method("cache", "Target", "gnmiRemove"),
		toDelete:   P.Func("cache", "toDeleteNotification"),
		join:       P.Func("cache", "joinPrefixAndPath"),
		fThr:       P.Field("cache", "Target", "futureThreshold"),
		fTs:        P.Field("cache", "Target", "ts"),
		fEvent:     P.Field("cache", "Target", "eventDriven"),
		fSync:      P.Field("cache", "Target", "sync"),
		fClient:    P.Field("cache", "Target", "client"),
		fMeta:      P.Field("cache", "Target", "meta"),
		fTree:      P.Field("cache", "Target", "t"),
		fAtomic:    P.Field("proto/gnmi", "Notification", "Atomic"),
		fTimestamp: P.Field("proto/gnmi", "Notification", "Timestamp"),
	}
	a.ok = true
	chk := func(ok bool, name string) {
		if !ok {
			c.Unresolved(rule, name)
			a.ok = false
		}
	}
	chk(a.gnmiUpdate != nil, "cache.(*Target).gnmiUpdate")
	chk(a.GnmiUpdate != nil, "cache.(*Target).GnmiUpdate")
	chk(a.gnmiRemove != nil, "cache.(*Target).gnmiRemove")
	chk(a.toDelete != nil, "cache.toDeleteNotification")
	chk(a.join != nil, "cache.joinPrefixAndPath")
	chk(a.fThr != nil, "cache.Target.futureThreshold")
	chk(a.fTs != nil, "cache.Target.ts")
	chk(a.fEvent != nil, "cache.Target.eventDriven")
	chk(a.fSync != nil, "cache.Target.sync")
	chk(a.fClient != nil, "cache.Target.client")
	chk(a.fAtomic != nil, "proto/gnmi.Notification.Atomic")
	chk(a.fTimestamp != nil, "proto/gnmi.Notification.Timestamp")
	if sp := P.pkg("metadata"); sp != nil {
		if nc, ok := sp.Members["Root"].(*ssa.NamedConst); ok {
			a.metaRoot, _ = constString(nc.Value)
		}
	}
	chk(a.metaRoot != "", "metadata.Root")
	return a
}

// isNotifRoot says where a *pb.Notification-typed value comes from: "n" (the
// function's notification parameter), "old" (read out of a ctree leaf) or "".
func (a *cacheAnchors) notifRoot(e *PPA, st *State, rv RV, fn *ssa.Function) string {
	r := rootOf(e, st, rv)
	switch v := r.V.(type) {
	case *ssa.Parameter:
		if isNamed(v.Type(), "proto/gnmi", "Notification") {
			return "n"
		}
	case *ssa.FreeVar:
		if isNamed(v.Type(), "proto/gnmi", "Notification") {
			return "n"
		}
	case *ssa.Call:
		switch calleeName(&v.Call) {
		case "(*ctree.Leaf).Value", "(*ctree.Tree).GetLeafValue", "(*ctree.Tree).Value":
			return "old"
		}
	}
	return ""
}

// class is the atom classifier for (*Target).gnmiUpdate and its siblings.
func (a *cacheAnchors) class(fn *ssa.Function) func(e *PPA, st *State, rv RV) string {
	var cls func(e *PPA, st *State, rv RV) string
	tsOf := func(e *PPA, st *State, recv RV) string {
		switch a.notifRoot(e, st, recv, fn) {
		case "n":
			return "NEW"
		case "old":
			return "OLD"
		}
		return ""
	}
	cls = func(e *PPA, st *State, rv RV) string {
		rv = e.Resolve(st, rv)
		switch v := rv.V.(type) {
		case *ssa.Call:
			name := calleeName(&v.Call)
			arg := func(i int) RV { return e.Resolve(st, RV{rv.F, v.Call.Args[i]}) }
			switch name {
			case "(*proto/gnmi.Notification).GetTimestamp":
				return tsOf(e, st, arg(0))
			case "(*proto/gnmi.Notification).GetAtomic":
				if a.notifRoot(e, st, arg(0), fn) == "n" {
					return "AT"
				}
			case "cache.T":
				return cls(e, st, arg(0))
			case "time.Unix":
				if c, ok := constInt(arg(0).V); ok && c == 0 {
					return cls(e, st, arg(1))
				}
			case "(time.Time).UnixNano":
				if x := cls(e, st, arg(0)); x == "TS" {
					return "TSNANO"
				} else if x != "" {
					return x
				}
			case "(time.Time).Sub":
				x, y := cls(e, st, arg(0)), cls(e, st, arg(1))
				if x == "NEW" && y == "NOW" {
					return "AHEAD_NOW"
				}
				if x == "NEW" && y == "TS" {
					return "AHEAD_TS"
				}
			case "google.golang.org/protobuf/proto.Equal":
				r0, r1 := a.notifRoot(e, st, arg(0), fn), a.notifRoot(e, st, arg(1), fn)
				if (r0 == "old" && r1 == "n") || (r0 == "n" && r1 == "old") {
					// whole notifications, not sub-messages
					if isNamed(unwrap(arg(0).V).Type(), "proto/gnmi", "Notification") && isNamed(unwrap(arg(1).V).Type(), "proto/gnmi", "Notification") {
						return "PEQ"
					}
				}
			case "value.Equal":
				return "VEQ"
			case "(*ctree.Tree).GetLeaf":
				return "EXISTS"
			case "(*ctree.Tree).Add":
				return "ADDERR"
			}
			if !v.Call.IsInvoke() && staticCallee(&v.Call) == nil {
				if u, ok := v.Call.Value.(*ssa.UnOp); ok && u.Op == token.MUL {
					if g, ok := u.X.(*ssa.Global); ok && g.Name() == "Now" && g.Pkg == fn.Pkg {
						return "NOW"
					}
				}
			}
		case *ssa.UnOp:
			if v.Op == token.MUL {
				switch fieldOf(v.X) {
				case a.fThr:
					return "THR"
				case a.fTs:
					return "TS"
				case a.fEvent:
					return "ED"
				case a.fSync:
					return "SYNC"
				case a.fAtomic:
					if fa, ok := v.X.(*ssa.FieldAddr); ok && a.notifRoot(e, st, RV{rv.F, fa.X}, fn) == "n" {
						return "AT"
					}
				case a.fTimestamp:
					if fa, ok := v.X.(*ssa.FieldAddr); ok {
						return tsOf(e, st, RV{rv.F, fa.X})
					}
				}
			}
		case *ssa.Extract:
			if ta, ok := v.Tuple.(*ssa.TypeAssert); ok && v.Index == 1 && a.notifRoot(e, st, RV{rv.F, ta.X}, fn) == "old" &&
				isNamed(ta.AssertedType, "proto/gnmi", "Notification") {
				return "OKTYPE"
			}
		case *ssa.BinOp:
			if v.Op == token.EQL || v.Op == token.NEQ {
				for _, pr := range [][2]ssa.Value{{v.X, v.Y}, {v.Y, v.X}} {
					if s, ok := constString(pr[1]); ok && s == a.metaRoot {
						o := e.Resolve(st, RV{rv.F, pr[0]})
						if idx, ok := elemIndex(o.V); ok && idx == 0 {
							if r := rootOf(e, st, o); isCallNamed(r.V, "cache.joinPrefixAndPath") {
								if v.Op == token.EQL {
									return "META"
								}
								return "!META"
							}
						}
					}
				}
			}
		}
		return ""
	}
	return cls
}

// elemIndex returns the constant index of an element load x[i].
func elemIndex(v ssa.Value) (int64, bool) {
	switch x := v.(type) {
	case *ssa.UnOp:
		if x.Op == token.MUL {
			return elemIndex(x.X)
		}
	case *ssa.IndexAddr:
		return constInt(x.Index)
	case *ssa.Index:
		return constInt(x.Index)
	}
	return 0, false
}
