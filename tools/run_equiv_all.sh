#!/bin/bash
f=$(readlink -f "$1")
cd /verif
r=$(tools/try_variant.sh $f all 2>&1); rc=$?
name="$(basename $(dirname $f))/$(basename $f)"
if echo "$r" | grep -q PATCH-FAILED; then echo "$name: PATCH-FAILED"; exit; fi
if [ $rc -ne 0 ] || echo "$r" | grep -q "^VIOLATION\|LOAD-FAILURE\|PANIC\|fatal error"; then echo "$name: FALSE-ALARM (rc=$rc)"; echo "$r" | grep "violated:\|undecided:\|LOAD\|PANIC\|fatal error" | cut -c1-330 | head -4; else echo "$name: silent"; fi
