#!/bin/bash
# Runs every seeded change under /verif/seeded against ALL properties (scratch copies, 6 in parallel)
# and prints which properties' checks report it.  Output: /verif/seeded/MATRIX.txt
cd /verif
out=/verif/seeded/MATRIX.txt
tmp=$(mktemp -d)
ls -d seeded/*/ | while read d; do echo "$(basename $d)"; done | xargs -P 8 -I{} bash -c '
  n={}; r=$(tools/try_variant.sh seeded/$n/patch.diff all 2>&1)
  props=$(echo "$r" | grep "^VIOLATION" | sed "s/VIOLATION property=\([A-Z0-9]*\).*/\1/" | sort -u | tr "\n" " ")
  rules=$(echo "$r" | grep "^  violated:\|^  undecided:" | sed "s/^  [a-z]*: \([A-Za-z0-9.\/-]*\) .*/\1/" | sort -u | tr "\n" " ")
  if echo "$r" | grep -q PATCH-FAILED; then props="PATCH-FAILED"; fi
  echo "$n | caught-by: ${props:-NONE} | rules: $rules" > '$tmp'/$n.txt'
cat $tmp/*.txt | sort > $out
rm -rf $tmp
cat $out
