#!/bin/bash
# usage: tools/try_variant.sh <patch.diff> <property> [tier]
# Applies a patch to a scratch copy of /repo and runs the checker on the copy.
set -u
patch=$(readlink -f "$1"); prop=$2; tier=${3:-quick}
d=$(mktemp -d ${TMPDIR:-/tmp}/gnmiverif.XXXXXX)
rsync -a --exclude .git /repo/ "$d/"
if ! (cd "$d" && patch -p1 -s --dry-run < "$patch" >/dev/null 2>&1); then
  rb="$(dirname "$patch")/patch.rebased.diff"
  if [ -f "$rb" ]; then patch="$rb"; fi
fi
if ! (cd "$d" && patch -p1 -s < "$patch"); then echo "PATCH-FAILED $patch"; rm -rf "$d"; exit 3; fi
mkdir -p "$d/.verif-out"; cp /verif/known_findings.json /verif/refsigs.json "$d/.verif-out/" 2>/dev/null
${GNMIVERIF_BIN:-/verif/bin/gnmiverif} -repo "$d" -verif "$d/.verif-out" -property "$prop" -tier "$tier" -noselftest | sed "s#$d/##g"
rc=${PIPESTATUS[0]}
rm -rf "$d"
exit $rc
