#!/usr/bin/env python3
"""Fills seeded/<id>/meta.json: detected_by from seeded/MATRIX.txt, and a one-paragraph
needs_to_manifest taken from the seed's README (headline + the 'needs' paragraph when present)."""
import json, re, os, glob
os.chdir('/verif')
matrix = {}
for line in open('seeded/MATRIX.txt'):
    m = re.match(r'(\S+) \| caught-by: (.*?) \| rules: (.*)', line.strip())
    if m:
        rules = m.group(3).split()
        matrix[m.group(1)] = [{'property': p, 'rules': [r for r in rules if r.startswith(p + '.')]} for p in m.group(2).split() if re.match(r'C\d\d$', p)]
for d in sorted(glob.glob('seeded/C*-*')):
    mp = d + '/meta.json'
    if not os.path.exists(mp):
        continue
    meta = json.load(open(mp))
    sid = os.path.basename(d)
    if sid in matrix:
        meta['detected_by'] = matrix[sid]
    if meta.get('needs_to_manifest', '').startswith('see README') and os.path.exists(d + '/README.md'):
        txt = open(d + '/README.md').read()
        head = txt.splitlines()[0].lstrip('# ').strip()
        m = re.search(r'(?im)^#+\s*(what it needs[^\n]*|needs[^\n]*|what is needed[^\n]*|trigger[^\n]*)\n+(.+?)(?=\n#|\Z)', txt, re.S)
        needs = ' '.join(m.group(2).split())[:700] if m else ''
        meta['needs_to_manifest'] = head + ('. ' + needs if needs else '') + ' (full text: README.md)'
    json.dump(meta, open(mp, 'w'), indent=1)
print(len(matrix), 'matrix rows applied')
