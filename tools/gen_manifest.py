#!/usr/bin/env python3
"""Regenerates /verif/MANIFEST.json from the table below (claimed properties) and properties.jsonl."""
import json, os, sys

ROOT = os.path.dirname(os.path.dirname(os.path.abspath(__file__)))

# property -> (technique, level text, level note, design ref)
CLAIMED = {
 "C04": ("predicated path enumeration over go/ssa (E4) + SSA def-use / call-graph reachability (E1/E2)",
         "Static, all-paths: in Subscribe the match registration precedes the cache walk on every STREAM path, the remove function is only deferred, exactly one sync marker per walk (placement checked on all paths of processSubscription), leaf handles (not snapshots) are queued, one shared queue, tree written before the feed is told. These are necessary conditions of convergence; the behavioural convergence statement itself is not decided.",
         "go/packages+go/ssa model of /repo's working tree; bounded loop unrolling; generated getters pure; grpc/coalesce/match/ctree behaviour covered by C06/C10/C11 clauses only",
         "DESIGN.md §3 C04"),
}

CLAIMED["C02"] = ("predicated path enumeration over go/ssa (E4) with ordering atoms; boundary evaluation of the delete condition",
         "Static, all-paths: the complete single-step decision table of the cache's stale/equal/newer/future switch (every ordering of new vs stored timestamp, proto-equality, 18 future-threshold sub-scenarios incl. equality boundaries), 'rejected => no tree write' on every path, the delete condition evaluated at <,=,>, and ctree.internalDelete honouring the condition. Necessary single-step conditions of the per-leaf invariant; the invariant over sequences is not decided.",
         "go/ssa model; atoms identified by callee+receiver provenance (GetTimestamp on the parameter vs on the value read from the leaf); generated getters pure; loops unrolled to a bound",
         "DESIGN.md §3 C02")

CLAIMED["C07"] = ("predicated path enumeration (E4) with boolean atoms for the ACL decisions; who-may-send enumeration of every stream Send in package subscribe (E1); SSA def-use for the response/ACL object flow",
         "Static, all-paths safety-by-construction: Unauthenticated gate, single-target PermissionDenied gate before any goroutine/Send/Insert, every Send site is data-free or dominated on every path by RPCACL.Check on the target of the very response sent using the RPC's own ACL, the response wraps the cached notification or its clone, all cache-built notifications carry a target prefix, the per-RPC ACL is never overwritten. This decides the denial half of the property for every schedule, given a truthful ACL; delivery of authorised data is not decided.",
         "go/ssa model; RPCACL.Check assumed truthful and side-effect free; a third Send site or a Send of an unchecked response is reported; direct callers of exported Target.GnmiUpdate outside the module not covered",
         "DESIGN.md §3 C07")

CLAIMED["C11"] = ("lockset analysis (E3) + predicated path enumeration with select-arm forking (E4) + boundary evaluation of Len()==0",
         "Static, all-paths for coalesce.Queue: guarded-by of queue/coalesced, closed-check before insert, non-blocking wake-up token after a successful insert into a channel of capacity>=1, complete blocking wait set in Next with ctx.Err on cancellation, closed reported only when empty (evaluated at Len 0 and 1), representation-level order/count rules for insert/next (increment by 1, append at tail with 0, dequeue head, count before delete, advance by one, key forgotten on every path). Necessary conditions of order/dup-count/no-loss; conservation over all interleavings is not decided.",
         "go/ssa model; sync.Mutex and channel semantics per the Go memory model; representation rules are tied to the slice+map representation (a different representation fails with UNRESOLVED-ANCHOR rather than passing)",
         "DESIGN.md §3 C11")
CLAIMED["C16"] = ("lockset analysis with foreign locks (E3) + predicated path enumeration (E4) + who-may-call (E5b) + boundary evaluation of the reference-count test; resource pairing of every in-module holder (release function returned, called or deferred before the next request), key agreement of cache / id / remove on resolved path values, ownership of the dial result",
         "Static, all-paths for connection.Manager: conns/ref only under Manager.mu, dial results published before ready and read after it, join-or-create in one critical section with exactly one go dial, every counted reference waits for ready or is undone, failure path removes+publishes under the lock, once-guarded release with decrement by 1 and remove iff ref test true at 0/false at 1, ClientConn.Close only in remove, remove only from dial/release body and always forgets the entry, manager.monitor defers the release before subscribe. Necessary conditions of correct reference counting for every interleaving; holders outside the module are not covered.",
         "go/ssa model; sync.Once/Mutex/channel-close semantics assumed; grpc.ClientConn not analysed",
         "DESIGN.md §3 C16")

CLAIMED["C13"] = ("typestate by predicated path enumeration with loop unrolling (E4) + who-may-call over synchronous call chains (E5b) + lockset (E3)",
         "Static, all-paths for manager.Manager: session typestate of handleUpdates (Reset exactly once after a failed Recv, Connect once before the first update, no return without Reset), callbacks only on the monitor goroutine's synchronous chain, close(finished) deferred with silence afterwards and ctx.Done as the only loop exit, Remove = cancel->wait->forget under the lock, Add refuses duplicates before any effect and starts one monitor, backoff never stops and the timer is re-armed, lock discipline incl. no Manager.mu on the monitor chain before finished. Together these give 'no callback after Remove returns' and the session discipline for every schedule as necessary structural conditions; timing/backoff behaviour is not decided.",
         "go/ssa model; loop of handleUpdates unrolled to 2 (quick) / 3 (thorough) iterations; context, channel and mutex semantics assumed; grpc stream behaviour not analysed",
         "DESIGN.md §3 C13")

CLAIMED["C17"] = ("predicated path enumeration (E4) with ordering atoms for the revision compare and per-iteration boolean atoms for the diff classification; write-effect scan (E5c); lock audit of Config.configuration (gate, diff and commit in one critical section)",
         "Static, all-paths for target.Config: load gate (no handler/diff/store on any refused load; diff then store inside one critical section on accepted loads), strict revision order table evaluated at <,=,>, the per-target classification table of handleDiffs (delete / none / exactly one Update carrying the new configuration's request / one Add per leftover) evaluated per loop iteration, read-only diff, cloned Current, nil-guarded handlers. These are the single-step necessary conditions of 'replaying handler calls yields the current configuration'; the convergence over histories is not decided.",
         "go/ssa model; proto.Equal/proto.Clone semantics assumed; loops unrolled to 2 iterations",
         "DESIGN.md §3 C17")
CLAIMED["C10"] = ("lockset / guarded-by analysis with call-site discharge of helper entry locksets, re-entrancy and release checks (E3); CFG dominance for the re-check (E2); call-graph reachability for visitor re-entry (E5)",
         "Static, all-paths for ctree: guarded-by of leafBranch with same-node lock identity, lock coupling at every descent, re-check before child insertion inside the write epoch, no upgrade/re-entrant acquisition (incl. through callees), all locks released on all exits, module visitors never re-enter the tree, no upward pointer in Tree. Necessary conditions of race/deadlock freedom for every schedule. The guarded-by rule found the delete family's reliance on the root lock only (a genuine race with leaf-handle updates, reproduced with the race detector and repaired by a fix commit) and now guards it; linearizability and query stability are not decided.",
         "go/ssa model; sync.RWMutex is not re-entrant (Go spec); lock identity by SSA provenance (same node = same resolved value); loops unrolled",
         "DESIGN.md §3 C10")

CLAIMED["C03"] = ("predicated path enumeration (E4), append-ownership / slice-aliasing analysis (E9), writes-through-parameter scan (E5c), arm-by-arm soundness analysis of value.Equal (E7+E4)",
         "Static, all-paths: every accepted tree write is announced with the leaf it produced; withheld iff (exists, non-atomic, value-equal, emulation on) and the store still happens; returned leaf = written leaf; caller's notification only touched by the nil/restore pair with restore on every exit; no retained append on a foreign/forked base in cache/path/ctree/value (the rule that found and now guards the fixed toDeleteNotification aliasing defect); multi notifications: updates before deletes, each on a clone; value.Equal never returns true for different values (per arm, incl. leaf-list length boundaries); Reset/Remove announce their deletes. Necessary conditions of replay equivalence; the equivalence over histories is not decided.",
         "go/ssa model; calls through interfaces/function values and library calls assumed not to retain slice arguments (listed in evidence); proto.Clone deep-copies; loops unrolled",
         "DESIGN.md §3 C03")

CLAIMED["C06"] = ("predicated path enumeration (E4), lockset with foreign locks (E3), append-ownership analysis (E9), boundary evaluation of the emptiness test, data-dependence slice for loop-carried state",
         "Static, all-paths for the at-most-once / never-after-removal / same-key clauses: per-notification set honoured and always supplied (the rule that found the fixed double-delivery defect), registry maps only under Match.mu, remove uses the registration's key and the retained query slice is never aliased (found and now guards the fixed addSubscription leak), prune only empty children, node empty iff no clients and no children (evaluated at the four boundary combinations), one query per subscription independent of its siblings, all index constructions through path.ToStrings/CompletePath. The match relation itself ('offered iff compatible on the common prefix', containment of Query) quantifies over path values and is NOT decided.",
         "go/ssa model; sync.RWMutex semantics; interface/function-value callees assumed not to retain slices",
         "DESIGN.md §3 C06")

CLAIMED["C08"] = ("effect (may-block) analysis over the call closure incl. interface implementers (E5a), per-path critical-section scan for blocking constructs (E3+E5a), predicated path enumeration for timer bracketing and queue representation (E4), store-ownership scan (E5c)",
         "Static, all-paths: the feed callback's whole closure is free of blocking constructs; nothing blocking runs while any lock of match/coalesce/cache/ctree/metadata/latency is held (client fields bound to the feed, module visitors checked); a pending key is never appended twice and a dequeued key is forgotten; every stream Send is bracketed by Reset/Stop of the timer whose expiry terminates the RPC (the rule that found the fixed sync-response defect); duplicate counts go only into a proto.Clone and come from Queue.Next. Necessary conditions of non-interference, the backlog bound and the timeout for every stall pattern; timing itself is not decided.",
         "go/ssa model; blocking table for library calls (listed assumption); cache client wiring as in cmd/gnmi_collector; sync.Mutex acquisition judged through its critical sections",
         "DESIGN.md §3 C08")

CLAIMED["C05"] = ("predicated path enumeration (E4) incl. goroutine-body analysis and loop unrolling, boundary evaluation of Len()==0, decision table of path.CompletePath over origin atoms, lockset of package cache (E3)",
         "Static, all-paths: ONCE = walk then unconditional queue close, sender ends cleanly exactly on closed queue, closed only when drained; POLL = initial walk then one walk per trigger with EOF/err exits; one sync marker per walk placed after the last Query/Insert and never after a failed step; visitor inserts every leaf; no streaming registration in ONCE/POLL; complete CompletePath origin table; the all-targets walk never re-acquires the cache lock. Necessary conditions of 'exactly the matching snapshot, then sync'; exactness of matching itself (ctree.Query) is not decided.",
         "go/ssa model; grpc stream and context behaviour assumed; loops unrolled to 2 iterations",
         "DESIGN.md §3 C05")

CLAIMED["C14"] = ("predicated path enumeration (E4) with loop unrolling, type-level field audit, store-root audit (E5c), 32-row decision table of isTargetDelete",
         "Static, all-paths: Reset = clear timestamp/metadata, regenerate metadata, then unconditionally delete and announce every non-metadata root (announcing exactly the deleted root); Remove = forget then announce under the write lock; per-target isolation by types (no field reaches another target), fresh per-target objects, receiver-only stores, one keyed lookup per cache entry point; a delivered whole-target delete ends a single-target stream cleanly and isTargetDelete is exact on its four atoms; metadata.Clear/ResetEntry cover all kinds. Necessary conditions of 'exactly this target and everything of it'; that Delete removes every leaf below a root is ctree semantics (not decided here).",
         "go/ssa model; package-level metadata registries are shared by design (assumption); loops unrolled",
         "DESIGN.md §3 C14")

CLAIMED["C15"] = ("predicated path enumeration of counter events per outcome (E4), sibling/contradiction rules for the metadata test and the LeafCount pairing (E7), lockset without propagation for post-construction Target fields and with foreign locks for latency/metadata (E3), loop analysis of window.slide; decision tables of the latency bookkeeping (order atoms over sample / batch extrema, field-flow shapes of slot / window updates) and of the metadata store operations",
         "Static, all-paths: exactly-one-category per outcome of gnmiUpdate, one UpdateCount per announced leaf, EmptyCount for empty notifications only; LeafCount/AddCount and LeafCount/DelCount pairing with the same non-metadata restriction on both sides (found and now guards the fixed -1 leaf count); latest timestamp only moves forward and is recorded exactly when something was accepted; all 'is metadata' decisions on element 0 of the joined path (the remaining deviation in Target.GnmiUpdate is KNOWN-FINDING F11); every post-construction Target field under one lock or atomic (found the fixed sync-flag race and unlocked ts reads); latency/window/metadata state only under their mutex; slide examines every slot. The numerical conservation laws and latency bounds quantify over runtime values and are NOT decided.",
         "go/ssa model; sync/atomic types are self-synchronising; Target.client exempt by the SetClient-before-updates contract (C01.wire); loops unrolled",
         "DESIGN.md §3 C15")

CLAIMED["C12"] = ("panic-site audit (E6): path-sensitive guard facts (length, non-nil, dynamic type, index bound) from branch decisions, stores and constructor summaries; predicate-helper summaries; call-site preconditions propagated to a fixpoint; reachability from the remote-input entry points incl. closures and goroutines; lock audit of the server statistics maps (an unsynchronised map access is a fatal runtime error)",
         "Static, all-paths over ~160 functions reachable from the remote-input entry points: every slice/string index, constant slicing, unchecked type assertion, dereference of a pointer that may be nil by provenance and explicit panic is guarded on every path, safe by construction or covered by a precondition established at every call site; stored notifications always carry an update (tree invariant); rejected updates never write. The audit found 20 unguarded sites on the pinned tree (all reproduced as crashes, now repaired by fix commits) and passes on the repaired tree; any new unguarded site is a violation. Panics in third-party code, resource exhaustion, non-constant slice bounds, typed-nil interfaces and races are NOT covered.",
         "go/ssa model; wire-format assumptions (repeated elements and set oneof payloads non-nil); generated getters nil-safe; expression identity by normalised printing (a location is assumed unchanged between guard and use unless a store to it is seen on the path)",
         "DESIGN.md §3 C12")

CLAIMED["C18"] = ("lockset (E3), predicated path enumeration with loop unrolling and typestate over the connected flag (E4), structural scans for concurrency constructs and channel capacities",
         "Static, all-paths: Close/initDone handshake inside single critical sections in the required store/test order (so the context is cancelled for every relative timing), deferred closer and wait discipline, retry-loop discipline (disconnect, unconditional context check, sleep, reset; returns only after the check), BaseClient.run exit classes and the close flag read right after every Recv, Close latching the flag before closing the implementation on every path, Connected-first typestate in the gnmi and fake clients, synchronous in-order delivery, getFirst's channel capacities and late-success cleanup. Necessary conditions of termination/callback discipline for every timing; real-time bounds are not decided.",
         "go/ssa model; context/backoff/grpc behaviour assumed; one exemption (initDone's closer reads subscribeDone on the writing goroutine) listed with reason in evidence",
         "DESIGN.md §3 C18")

CLAIMED["C19"] = ("map-order taint lint (E8), predicated path enumeration for the ToStrings/CompletePath placement tables (E4), arm-by-arm sibling/soundness analysis of value.Equal and kind tables of From/ToScalar (E7), store-root and constant-agreement checks for the client path, append-ownership (E9)",
         "Static, all-paths: map-order independence of every result in path/value/client-gnmi, target/origin/element/key placement table of ToStrings, complete CompletePath origin table, value.Equal nil-safe/total/sound per arm incl. leaf-list boundaries, scalar kind tables agree with error defaults, the client query path is escaped with the separator it is joined with on a private copy. Necessary conditions of determinism, faithfulness and totality; round trips through ygot/the wire and float precision are not decided.",
         "go/ssa model; sort.* sorts; ygot not analysed",
         "DESIGN.md §3 C19")

CLAIMED["C20"] = ("forbidden-call / receiver-provenance rule for randomness (E5b), map-order lint (E8), predicated path enumeration with boundary atoms for clamps, deltas and repeat counts (E4), structural dataflow for head/sync, oneof exhaustiveness (E7)",
         "Static, all-paths for the synthetic target: every random draw comes from a seeded *rand.Rand of the generator (no global rand, no crypto/rand, time.Now only for a zero seed, no map order), clamps store max/min/drawn on every boundary combination for int/uint/double, timestamp deltas refuse min>max and min<0 and add Int63n(max-min+1)+min, repeat boundaries (1 drops, >1 decrements the clone never the configuration, 0 indefinite) and re-add iff alive, head read before advance, sync injected with the same queue's latest timestamp, every value kind handled or explicit default. Necessary conditions of reproducibility, boundedness and repeat exactness; global ordering by the binary-search insertion, overflow and concurrent use are not decided.",
         "go/ssa model; math/rand determinism for a fixed seed assumed; single-goroutine use",
         "DESIGN.md §3 C20")

CLAIMED["C09"] = ("map-order lint incl. no-callback-in-map-range (E8), predicated path enumeration of internalDelete over path/glob/branch/emptiness atoms with boundary evaluation of the removable flag (E4), loop/dominance checks for visitor calls, append-base provenance for per-child path copies (E9)",
         "Static, all-paths necessary conditions: sorted walk/String order-independent; a leaf reached with an exhausted path or one trailing glob is always offered to the condition and removed/reported/called back exactly when accepted; an empty node is never offered (found and now guards the fixed empty-tree delete); children pruned only after a removable visit; a branch reports itself removable exactly when empty in every glob/explicit arm; roots cleared only on the flag; visitors at most once per node; each child gets its own path slice. Model equivalence with a prefix-free map over operation sequences, failed-add atomicity and full Query/Delete agreement quantify over tree values and are NOT decided.",
         "go/ssa model; map and slice semantics assumed; loops unrolled",
         "DESIGN.md §3 C09")

CLAIMED["C01"] = ("predicated path enumeration for registration/stamping/wiring order (E4), bound-method and closure provenance for callback wiring (E1), data-dependence slice for the CLI request text (E7 sibling rule), oneof / notification-type exhaustiveness (E7), shared relay clauses (queue key forgotten on dequeue, strict delete condition); string-range byte-index audit (cuts of a ranged string at index +/- constant need an ASCII fact)",
         "Static, all-paths necessary conditions of the end-to-end relay: every managed target is first registered with the cache under the same name; the manager's callbacks are the one cache's methods and its Update closure stamps the target into a non-nil prefix on every path before Cache.GnmiUpdate; the cache's feed is the registered Subscribe server's Update, installed before serving and before targets start; all four CLI execute* functions parse the text returned by protoRequestFromFlags; every SubscribeResponse kind / client notification type has an arm, updates and deletes are all forwarded, Update->Tree.Add, Delete->Tree.Delete. The rules found the never-registered-targets and ignored -proto_file defects (now fixed) and guard them. End-to-end equality of the client view with the target state is NOT decided.",
         "go/ssa model of the two cmd packages and the client decode path; grpc and flag parsing not analysed",
         "DESIGN.md §3 C01")

NA_REASON = {}
DEFAULT_NA = "check not built yet in this round (static rules designed in DESIGN.md section 3); not claimed until the rule runs"

def main():
    props = [json.loads(l) for l in open(os.path.join(ROOT, "properties.jsonl"))]
    m = {
        "version": 1,
        "setup_cmd": "cd checker && GOFLAGS=-mod=mod GOPROXY=off GOSUMDB=off GOTOOLCHAIN=local GOWORK=off go build -o ../bin/gnmiverif .",
        "hooks": {
            "guard": "verif",
            "enable": "no hooks: the checker analyses /repo's sources as they are (go/packages + go/ssa); nothing is compiled into gnmi",
            "baseline_off_cmd": "cd /repo && go test -vet=off -count=1 ./...",
            "source_commits": [],
            "add_only": True,
        },
        "engines": [
            {"name": "gnmiverif", "path": "checker/", "serves_properties": sorted(CLAIMED),
             "kind_free_text": "repository-specific static analyser on go/packages + go/ssa (x/tools v0.29.0): anchor resolver, predicated path enumeration, lockset, effect/who-may-call, panic-site audit, sibling/exhaustiveness, map-order and append-aliasing rules"},
        ],
        "checks": [],
        "notes": "Static analysis only (no gnmi code is executed). Every claim is at level 'other': structural necessary conditions decided on all CFG paths; see DESIGN.md §3/§4 and each evidence file's coverage.explanation / not_decided.",
        "not_applicable": [],
    }
    # the level text is what the checker itself states it decides (single source of truth; the same text is the
    # coverage.explanation of every evidence file): ./bin/gnmiverif -dump-explain
    import subprocess
    try:
        explain = json.loads(subprocess.check_output([os.path.join(ROOT, "bin", "gnmiverif"), "-dump-explain"]))
    except Exception as e:  # binary not built yet: keep the table's text
        explain = {}
        print("warning: -dump-explain unavailable:", e)
    for p in props:
        pid = p["id"]
        if pid in CLAIMED:
            tech, text, note, ref = CLAIMED[pid]
            if pid in explain:
                text = ("Static, all-paths necessary conditions (nothing of gnmi is executed). " + explain[pid]["explain"] +
                        " NOT decided (behavioural remainder, static analysis not applicable): " + explain[pid]["not_covered"] + ".")
                tech += "; shared clauses borrowed from the rule implementations of related properties (DESIGN.md §8.1); rename canonicalisation of anchors (§8.5)"
                ref += ", §8"
            m["checks"].append({
                "property_id": pid,
                "quick_cmd": "./bin/gnmiverif -property %s -tier quick" % pid,
                "thorough_cmd": "./bin/gnmiverif -property %s -tier thorough" % pid,
                "evidence_file": "/verif/evidence/%s.json" % pid,
                "replay_cmd_template": "cat {path}",
                "engine": "gnmiverif",
                "level_claimed": {"category": "other", "text": text, "design_ref": ref},
                "level_note": note,
                "technique": "static analysis: " + tech,
            })
        else:
            m["not_applicable"].append({"property_id": pid, "reason": NA_REASON.get(pid, DEFAULT_NA)})
    json.dump(m, open(os.path.join(ROOT, "MANIFEST.json"), "w"), indent=1)
    print("claimed:", len(m["checks"]), "not_applicable:", len(m["not_applicable"]))

if __name__ == "__main__":
    main()
