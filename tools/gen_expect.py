#!/usr/bin/env python3
"""Regenerates variants/EXPECT.json from seeded/MATRIX.txt (breaking changes, per catching
property) and variants/*/equiv-*.diff (behaviour-preserving refactorings: every property's
check must stay silent on them).  Hand-written variants (variants/*/break-*.diff) are kept."""
import json, glob, os, re
os.chdir('/verif')
out = []
for e in json.load(open('variants/BREAK.json')):
    e = dict(e); e['expect'] = 'violation'; out.append(e)
props = ['C%02d' % i for i in range(1, 21)]
for line in open('seeded/MATRIX.txt'):
    m = re.match(r'(\S+) \| caught-by: (.*?) \| rules: (.*)', line.strip())
    if not m:
        continue
    seed, caught, rules = m.group(1), m.group(2).split(), m.group(3).split()
    for p in caught:
        if not re.match(r'C\d\d$', p):
            continue
        rs = [r for r in rules if r.startswith(p + '.')]
        e = {'patch': 'seeded/%s/patch.diff' % seed, 'property': p, 'expect': 'violation',
             'note': 'seeded change for %s (independent sub-agent, confirmed: suite passes, demo fails)' % seed.split('-')[0]}
        if rs:
            e['note'] += '; reported by ' + ', '.join(rs)
        out.append(e)
for f in sorted(glob.glob('variants/*/equiv-*.diff')):
    for p in props:
        out.append({'patch': f, 'property': p, 'expect': 'silent',
                    'note': 'behaviour-preserving refactoring written by an independent sub-agent (suite passes); no check may alarm'})
json.dump(out, open('variants/EXPECT.json', 'w'), indent=1)
print(len(out), 'expectations')
