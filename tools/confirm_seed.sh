#!/bin/bash
# usage: tools/confirm_seed.sh <prop> <a|b> <pkgdir> <test-regex> [extra go test flags]
# Confirms a seeded change delivered under ${SEEDSRC:-/tmp/seed}/<prop>/<x>/ in a scratch worktree (stored as <prop>-${OUTX:-<x>}):
#  - demo passes on the pinned commit, fails with the change
#  - the change builds and the full existing suite passes with it
# and records it under /verif/seeded/<prop>-<x>/ (patch.diff, demo, meta.json).
set -u
export GOFLAGS=-mod=mod GOPROXY=off GOSUMDB=off GOTOOLCHAIN=local; unset GOWORK
prop=$1; x=$2; dir=$3; rx=$4; shift 4; extra="$*"
src=${SEEDSRC:-/tmp/seed}/$prop/$x
ox=${OUTX:-$x}
out=/verif/seeded/$prop-$ox
wt=/tmp/confirm/$prop-$ox
log=/tmp/confirm/$prop-$ox.log
mkdir -p /tmp/confirm; rm -rf "$wt"; : > "$log"
git -C /repo worktree add -q --detach "$wt" HEAD || exit 3
demo=$(ls $src/demo_test.go 2>/dev/null || ls $src/*_test.go | head -1)
dst="$wt/$dir/zz_seed_demo_test.go"
cp "$demo" "$dst"
run_demo() { (cd "$wt" && timeout 900 go test -vet=off -count=1 $extra -run "$rx" ./$dir/ ) >>"$log" 2>&1; }
echo "### demo on pinned commit" >>"$log"; run_demo; base=$?
rm "$dst"
(cd "$wt" && git apply "$src/patch.diff") >>"$log" 2>&1; applied=$?
echo "### build+suite with change" >>"$log"
(cd "$wt" && go build ./... && go test -vet=off -count=1 ./... ) >"$log.suite" 2>&1; suite=$?
cat "$log.suite" >>"$log"
# Some tests of the repository are timing-sensitive and fail or hang when the machine is loaded
# (subscribe.TestGNMICoalescedDupCount races its own Subscribe goroutine against its first update;
# cli.TestSendQueryAndDisplay has 100 ms streaming deadlines).  A failing package is re-run on its own,
# twice at most; a failure the change causes fails again.
if [ $suite -ne 0 ] && grep -q '^ok\s' "$log.suite"; then
  pkgs=$(grep '^FAIL\s' "$log.suite" | awk '{print $2}' | grep '/' | sed 's#github.com/openconfig/gnmi#.#' | sort -u)
  if [ -n "$pkgs" ]; then
    suite=0
    for pk in $pkgs; do
      okp=1
      for try in 1 2; do
        echo "### re-run of $pk (failed in the full run), try $try" >>"$log"
        if (cd "$wt" && go test -vet=off -count=1 $pk/ ) >>"$log" 2>&1; then okp=0; break; fi
      done
      [ $okp -ne 0 ] && suite=1
    done
  fi
fi
rm -f "$log.suite"
cp "$demo" "$dst"
echo "### demo with change" >>"$log"; run_demo; with=$?
git -C /repo worktree remove --force "$wt"
ok=false
if [ $base -eq 0 ] && [ $applied -eq 0 ] && [ $suite -eq 0 ] && [ $with -ne 0 ]; then ok=true; fi
echo "$prop-$ox: demo_on_pinned=$base apply=$applied suite_with_change=$suite demo_with_change=$with confirmed=$ok"
if $ok; then
  mkdir -p "$out"
  cp "$src/patch.diff" "$out/patch.diff"; cp "$demo" "$out/demo_test.go"; [ -f "$src/README.md" ] && cp "$src/README.md" "$out/README.md"
  python3 - "$prop" "$ox" "$dir" "$rx" "$extra" "$out" <<'EOF'
import json,sys
prop,x,d,rx,extra,out=sys.argv[1:7]
meta={"property":prop,"variant":x,"demo_dir":d,"demo_cmd":"go test -vet=off -count=1 %s -run '%s' ./%s/ (demo_test.go copied into that directory)"%(extra,rx,d),
 "confirmed":{"demo_passes_on_pinned_commit":True,"patch_applies":True,"build_and_full_suite_pass_with_change":True,"demo_fails_with_change":True},
 "ran":"tools/confirm_seed.sh in a scratch git worktree of /repo (removed afterwards)","needs_to_manifest":"see README.md","detected_by":[]}
json.dump(meta,open(out+"/meta.json","w"),indent=1)
EOF
fi
