#!/bin/bash
# Development regression: every property, thorough tier, with the variant expectations enforced
# (exit 2 if a breaking variant is missed, an equivalent variant alarms, or a variant is stale).
cd /verif
rc=0
for p in C01 C02 C03 C04 C05 C06 C07 C08 C09 C10 C11 C12 C13 C14 C15 C16 C17 C18 C19 C20; do
  ./bin/gnmiverif -property $p -tier thorough -selftest-strict > /tmp/selfcheck.$p.out 2>&1; r=$?
  echo "$p exit=$r $(grep -c '^  FAIL' /tmp/selfcheck.$p.out) unmet, $(grep -o 'stale variant' /tmp/selfcheck.$p.out | wc -l) stale"
  [ $r -ne 0 ] && rc=$r
done
exit $rc
